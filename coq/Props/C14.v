(* Props/C14.v — estimator answers depend only on what is currently registered; queries are pure.
   The model (Model/History.v) has immutable values: purity of queries ON THE REAL OBJECT, bit-identical
   twins and 'caller arrays untouched' are runtime facts that are TESTED at every step of every history
   by the check (labelled (T)), not proved here. *)
From Coq Require Import QArith Qabs List Bool Arith.
From DV Require Import Base.QVec Run.Verdict Model.Capture Model.Linear Model.Estimator Model.History Proofs.HistoryP.
Import ListNotations.
Open Scope Q_scope.

(* queries never change the registered values, and can be dropped from any history *)
Theorem queries_are_pure : forall dom F s, step dom F s Query = s.
Proof. exact Proofs.HistoryP.queries_are_pure. Qed.
Print Assumptions queries_are_pure.
Theorem queries_can_be_dropped : forall dom F s h,
  run dom F s (filter (fun o => match o with Query => false | _ => true end) h) = run dom F s h.
Proof. exact Proofs.HistoryP.queries_can_be_dropped. Qed.
Print Assumptions queries_can_be_dropped.
(* every answer is a function of the registered values *)
Theorem answers_depend_on_registered_values : forall dom F s1 s2 sig x, s1 = s2 ->
  q_relcap dom F s1 sig = q_relcap dom F s2 sig /\ q_sysrel s1 x = q_sysrel s2 x.
Proof. exact Proofs.HistoryP.answers_depend_on_state. Qed.
Print Assumptions answers_depend_on_registered_values.

(* re-registering a value fully replaces the old one, for EVERY intermediate history that does not itself
   read or write that value *)
Theorem adaptation_replaced : forall dom F s K1 K2 h, forallb k_free h = true ->
  run dom F s (RegAdapt K1 :: h ++ [RegAdapt K2]) = run dom F s (h ++ [RegAdapt K2]).
Proof. exact Proofs.HistoryP.adaptation_replaced. Qed.
Print Assumptions adaptation_replaced.
Theorem baseline_replaced : forall dom F s b1 b2 h, forallb base_free h = true ->
  run dom F s (RegBaseline b1 :: h ++ [RegBaseline b2]) = run dom F s (h ++ [RegBaseline b2]).
Proof. exact Proofs.HistoryP.baseline_replaced. Qed.
Print Assumptions baseline_replaced.
Theorem targets_replaced : forall dom F s B1 W1 B2 W2 h, forallb tgt_free h = true ->
  run dom F s (RegTargets B1 W1 :: h ++ [RegTargets B2 W2]) = run dom F s (h ++ [RegTargets B2 W2]).
Proof. exact Proofs.HistoryP.targets_replaced. Qed.
Print Assumptions targets_replaced.
Theorem system_replaced : forall dom F s S1 l1 u1 S2 l2 u2 h, forallb sys_free h = true ->
  run dom F s (RegSystem S1 l1 u1 :: h ++ [RegSystem S2 l2 u2]) = run dom F s (h ++ [RegSystem S2 l2 u2]).
Proof. exact Proofs.HistoryP.system_replaced. Qed.
Print Assumptions system_replaced.

(* registrations of independent values commute (any order leads to the same registered values) *)
Theorem independent_registrations_commute : forall dom F s lb ub b K Src,
  step dom F (step dom F s (RegBounds lb ub)) (RegBaseline b) = step dom F (step dom F s (RegBaseline b)) (RegBounds lb ub) /\
  step dom F (step dom F s (RegBounds lb ub)) (RegAdapt K) = step dom F (step dom F s (RegAdapt K)) (RegBounds lb ub) /\
  step dom F (step dom F s (RegAdapt K)) (RegBaseline b) = step dom F (step dom F s (RegBaseline b)) (RegAdapt K) /\
  step dom F (step dom F s (RegSystem Src lb ub)) (RegAdapt K) = step dom F (step dom F s (RegAdapt K)) (RegSystem Src lb ub) /\
  step dom F (step dom F s (RegSystem Src lb ub)) (RegBaseline b) = step dom F (step dom F s (RegBaseline b)) (RegSystem Src lb ub).
Proof.
  intros. split; [apply bounds_baseline_commute|]. split; [apply bounds_adapt_commute|]. split; [apply adapt_baseline_commute|].
  split; [apply system_adapt_commute | apply system_baseline_commute].
Qed.
Print Assumptions independent_registrations_commute.
Theorem targets_commute_with_registrations : forall dom F s B W o,
  match o with RegTargets _ _ | FitInternal _ => False | _ => True end ->
  step dom F (step dom F s (RegTargets B W)) o = step dom F (step dom F s o) (RegTargets B W).
Proof. exact Proofs.HistoryP.targets_commute_with_registrations. Qed.
Print Assumptions targets_commute_with_registrations.
(* adaptation to a background READS the baseline: those two do not commute (honest boundary of the law) *)
Theorem background_and_baseline_do_not_commute : exists dom F s bg b,
  step dom F (step dom F s (RegBaseline b)) (RegBackground bg true false) <>
  step dom F (step dom F s (RegBackground bg true false)) (RegBaseline b).
Proof. exact background_baseline_do_not_commute. Qed.
Print Assumptions background_and_baseline_do_not_commute.
