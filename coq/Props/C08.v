(* Props/C08.v — underdetermined fits reproduce the target and optimise the chosen secondary goal. *)
From Coq Require Import QArith Qabs Qminmax List Bool Arith.
From DV Require Import Base.QVec Run.Verdict Model.Linear Cert.Duality Cert.Qp Model.Fits Proofs.FitsP.
Import ListNotations.
Open Scope Q_scope.

(* (F) each option's cvxpy objective is the documented secondary goal, for every x *)
Theorem objectives_are_documented : forall n x v vv, length x = n -> length vv = n ->
  objective (under_obj n Ol2) x == sumQ (vmul x x) /\            (* squared Euclidean norm *)
  objective (under_obj n Omin) x == sumQ x /\                    (* total intensity (minimised) *)
  objective (under_obj n Omax) x == - sumQ x /\                  (* total intensity (maximised) *)
  objective (under_obj n (Onum v)) x == (sumQ x - v) * (sumQ x - v) /\
  objective (under_obj n (Ovec vv)) x == sq (vsub x vv).
Proof.
  intros n x v vv Hx Hv. repeat split;
    [apply obj_l2_spec | apply obj_min_spec | apply obj_max_spec | apply obj_num_spec | apply obj_vec_spec]; auto.
Qed.
Print Assumptions objectives_are_documented.
Theorem variance_objective_is_documented : forall n x, length x = n -> (0 < n)%nat ->
  objective (under_obj n Ovar) x == sq (vsub x (repeat (mean x) n)).
Proof. exact obj_var_spec. Qed.
Print Assumptions variance_objective_is_documented.
Theorem norm_and_square_have_same_minimisers : forall a b : Q, 0 <= a -> 0 <= b -> (a * a <= b * b <-> a <= b).
Proof. exact l2_same_minimisers. Qed.
Print Assumptions norm_and_square_have_same_minimisers.

(* (F) the extra constraint is exactly "weighted capture error <= l2_eps" in receptor space *)
Theorem fit_quality_constraint_is_documented : forall K A n base w b rho x, rect n A -> length base = length A -> Kshape_ok K (length A) ->
  length w = length A -> length b = length A ->
  (cone_feas (fit_cone K A n base w b rho) x <-> (0 <= rho /\ spec_err K A base w b x <= rho * rho)).
Proof. exact fit_cone_spec. Qed.
Print Assumptions fit_quality_constraint_is_documented.

(* (C) a passing verdict: among ALL in-bound intensities reproducing the target within l2_eps the returned X
   optimises the selected objective (up to u_tol_obj) *)
Theorem underdetermined_fit_is_optimal : forall c : ucase, uverdict c = true ->
  rect (u_n c) (u_A c) -> length (u_base c) = length (u_A c) -> Kshape_ok (u_K c) (length (u_A c)) ->
  length (u_w c) = length (u_A c) -> length (u_b c) = length (u_A c) ->
  forall x, in_boxo x (somesv (u_lb c)) (somesv (u_ub c)) -> 0 <= u_eps c ->
    spec_err (u_K c) (u_A c) (u_base c) (u_w c) (u_b c) x <= u_eps c * u_eps c ->
    objective (under_obj (u_n c) (u_opt c)) (u_X c) <= objective (under_obj (u_n c) (u_opt c)) x + u_tol_obj c.
Proof. exact under_verdict_sound. Qed.
Print Assumptions underdetermined_fit_is_optimal.
