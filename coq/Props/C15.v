(* Props/C15.v — results are equivariant under a change of physical units
   (intensities in units s times larger, captures in units c times smaller). *)
From Coq Require Import QArith Qabs List Bool Arith.
From DV Require Import Base.QVec Run.Verdict Model.Linear Cert.Duality Cert.Hull Model.Lsq Model.Range Model.Equiv Proofs.EquivP.
Import ListNotations.
Open Scope Q_scope.

(* gamut membership is unchanged, for every s, c > 0 *)
Theorem gamut_equivariant : forall A' base' lb ub b s c, 0 < s -> 0 < c ->
  (reproducible A' base' lb ub b <-> reproducible (twinA s c A') (vscale c base') (obscale (/ s) lb) (obscale (/ s) ub) (twinb c b)).
Proof. exact Proofs.EquivP.gamut_equivariant. Qed.
Print Assumptions gamut_equivariant.
(* the solution polytope is mapped by x |-> x/s: solution ranges scale by exactly 1/s *)
Theorem polytope_equivariant : forall A b lb ub x s c, 0 < s -> 0 < c ->
  (sol_set A b lb ub x <-> sol_set (twinA s c A) (twinb c b) (vscale (/ s) lb) (vscale (/ s) ub) (twinx s x)).
Proof. exact Proofs.EquivP.polytope_equivariant. Qed.
Print Assumptions polytope_equivariant.
(* the weighted squared capture error of the twin at x/s is c^2 times the original at x (all K kinds) *)
Theorem lsq_equivariant : forall K A base w b x s c n, 0 < s -> rect n A -> length base = length A -> Kshape_ok K (length A) ->
  length w = length A -> length b = length A -> length x = n ->
  spec_err K (twinA s c A) (vscale c base) w (twinb c b) (twinx s x) == c * c * spec_err K A base w b x.
Proof. exact Proofs.EquivP.lsq_equivariant. Qed.
Print Assumptions lsq_equivariant.
(* hence exact minimisers correspond (fitted intensities scale by 1/s) and predictions / errors by c *)
Theorem minimisers_correspond : forall K A base w b lb ub xs s c n, 0 < s -> 0 < c -> rect n A -> length base = length A ->
  Kshape_ok K (length A) -> length w = length A -> length b = length A -> length lb = n -> length ub = n ->
  in_boxo xs lb ub ->
  (forall x, in_boxo x lb ub -> spec_err K A base w b xs <= spec_err K A base w b x) ->
  forall y, in_boxo y (obscale (/ s) lb) (obscale (/ s) ub) ->
    spec_err K (twinA s c A) (vscale c base) w (twinb c b) (twinx s xs) <= spec_err K (twinA s c A) (vscale c base) w (twinb c b) y.
Proof. exact lsq_minimiser_equivariant. Qed.
Print Assumptions minimisers_correspond.
Theorem predicted_capture_scales : forall A' base' s c x, 0 < s ->
  veq (predict (twinA s c A') (vscale c base') (twinx s x)) (vscale c (predict A' base' x)).
Proof. exact predict_twin. Qed.
Print Assumptions predicted_capture_scales.
