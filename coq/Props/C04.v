(* Props/C04.v — the default fit is the global bounded weighted least-squares optimum. *)
From Coq Require Import QArith List.
From DV Require Import Base.QVec Run.Verdict Model.Linear Cert.Duality Model.Lsq Proofs.LinearP Proofs.LsqP.
Import ListNotations.
Open Scope Q_scope.

(* (F) what lsq_linear hands to cvxpy — (A' * w) x - (b - base') * w with A', base' from
   apply_linear_transform — has, for EVERY x, exactly the documented objective value
   sum_j w_j^2 (K(Ax+baseline) - b)_j^2, for scalar, per-receptor and matrix K *)
Theorem form_lsq_meets_spec : forall K A base w b x n,
  rect n A -> length base = length A -> Kshape_ok K (length A) ->
  length w = length A -> length b = length A ->
  obj_ls (form_M w (transA K A n)) (form_e w b (transB K base)) x == spec_err K A base w b x.
Proof. exact Proofs.LinearP.form_lsq_meets_spec. Qed.
Print Assumptions form_lsq_meets_spec.

(* (F) prediction X A'^T + baseline' is the model capture K(AX + baseline) *)
Theorem predict_is_model_capture : forall K A base x n,
  rect n A -> length base = length A -> Kshape_ok K (length A) ->
  veq (predict (transA K A n) (transB K base) x) (relcap K A base x).
Proof. exact apply_linear_transform_spec. Qed.
Print Assumptions predict_is_model_capture.

(* (C) a passing verdict on a real output certifies global optimality over ALL in-bound
   intensities (sqrt-free form of  sqrt f(X) <= sqrt f(x) + tol), bounds and prediction *)
Theorem fit_certificate_sound : forall c : case, verdict c = true ->
  (forall x, in_boxo x (c_lb c) (c_ub c) ->
     forall t, 0 <= t -> spec_err (c_K c) (c_A c) (c_base c) (c_w c) (c_b c) x <= t * t ->
       spec_err (c_K c) (c_A c) (c_base c) (c_w c) (c_b c) (c_X c) <= (t + c_tolc c) * (t + c_tolc c))
  /\ in_box_tol (c_X c) (c_lb c) (c_ub c) (c_tolb c) = true
  /\ vclose (c_tolp c) (c_tolp c) (relcap (c_K c) (c_A c) (c_base c) (c_X c)) (c_Bpred c) = true.
Proof. exact lsq_verdict_sound. Qed.
Print Assumptions fit_certificate_sound.

(* the generic weak-duality bound behind it *)
Theorem weak_duality : forall i c q qx0 g x0 L,
  wfb i = true -> cert_ok i c = true -> length g = n i -> length x0 = n i ->
  (forall x, length x = n i -> qx0 + dot g (vsub x x0) <= q x) ->
  dual_bound i c qx0 g x0 = Some L -> forall x, feasible i x -> L <= q x.
Proof. exact dual_bound_sound. Qed.
Print Assumptions weak_duality.

(* (F) zero error exactly when the target is reproduced (hence, with the certificate, exactly
   when it is in the gamut) *)
Theorem zero_error_iff_reproduced : forall K A base w b x,
  length w = length b -> length (relcap K A base x) = length b -> Forall (fun a => ~ a == 0) w ->
  (spec_err K A base w b x == 0 <-> veq (relcap K A base x) b).
Proof. exact Proofs.LsqP.zero_error_iff_reproduced. Qed.
Print Assumptions zero_error_iff_reproduced.

(* non-vacuity: a concrete under-determined instance with an active bound passes the verdict *)
Example verdict_nonvacuous :
  verdict {| c_A := [[1; 2]]; c_n := 2; c_lb := [Some 0; Some 0]; c_ub := [Some 1; None];
             c_K := Kv [2]; c_base := [1#2]; c_w := [1]; c_b := [0];
             c_X := [0; 0]; c_Bpred := [1]; c_x0 := [0; 0]; c_s := 1;
             c_tolc := 1#100; c_tolb := [1#100; 1#100]; c_tolp := 1#1000000000 |} = true.
Proof. vm_compute. reflexivity. Qed.
