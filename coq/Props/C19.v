(* Props/C19.v — domain equalisation interpolates onto the exact overlap at coarsest resolution.
   Model: Model/Domain.v (tied to dreye.equalize_domains and ReceptorEstimator.capture(domain=)
   by the correspondence `Domain.gverdict`). *)
From Coq Require Import QArith Qabs Qminmax List ZArith Lia.
From DV Require Import Base.QVec Run.Verdict Model.Capture Model.Domain Proofs.DomainP.
Import ListNotations.
Open Scope Q_scope.

(* the new domain is np.linspace(lo, hi, num): starts exactly at lo, ends exactly at hi, uniform *)
Theorem grid_ends : forall lo hi num, (2 <= num)%nat ->
  nth 0 (grid lo hi num) 0 == lo /\ nth (num - 1) (grid lo hi num) 0 == hi /\ length (grid lo hi num) = num.
Proof. intros lo hi num H. split; [apply grid_first; lia | split; [apply grid_last; auto | apply grid_length]]. Qed.
Print Assumptions grid_ends.
Theorem grid_is_uniform : forall lo hi num k, (2 <= num)%nat -> (S k < num)%nat ->
  nth (S k) (grid lo hi num) 0 - nth k (grid lo hi num) 0 == (hi - lo) / (inject_Z (Z.of_nat num) - 1).
Proof. exact grid_uniform. Qed.
Print Assumptions grid_is_uniform.

(* number of intervals = integer nearest to overlap/step (np.around: ties to even) *)
Theorem grid_count : forall lo hi step, (0 <= round_half_even ((hi - lo) / step))%Z ->
  length (arange_with_interval lo hi step) = S (Z.to_nat (round_half_even ((hi - lo) / step))).
Proof. exact arange_count. Qed.
Print Assumptions grid_count.
Theorem rounding_is_nearest_ties_even : forall q,
  Qabs (q - inject_Z (round_half_even q)) <= 1#2 /\
  (Qabs (q - inject_Z (round_half_even q)) == 1#2 -> Z.even (round_half_even q) = true).
Proof. intros q; split; [apply round_half_even_near | apply round_half_even_tie]. Qed.
Print Assumptions rounding_is_nearest_ties_even.

(* overlap = [max of minima, min of maxima]; step = max of the mean input steps (coarsest) *)
Theorem overlap_and_coarsest_step : forall ds lo hi st, ds <> [] -> bounds_and_diff ds = (lo, hi, st) ->
  Forall (fun d => dmin d <= lo /\ hi <= dmax d /\ mean_step d <= st) ds /\
  (exists d, In d ds /\ lo == dmin d) /\ (exists d, In d ds /\ hi == dmax d) /\
  (st == 0 \/ exists d, In d ds /\ st == mean_step d).
Proof. exact bounds_and_diff_spec. Qed.
Print Assumptions overlap_and_coarsest_step.
(* mean of the consecutive differences telescopes to (last - first): mean step = range/(len-1) *)
Theorem mean_step_telescopes : forall a l, sumQ (diffs (a :: l)) == last l a - a.
Proof. exact sum_diffs_telescope. Qed.
Print Assumptions mean_step_telescopes.

(* linear interpolation: exact at knots, the chord between neighbours (hence within their hull),
   linear in the values, fill value 0 outside *)
Theorem interp_exact_at_knots : forall xs ys k,
  ascending xs -> length xs = length ys -> (2 <= length xs)%nat -> (k < length xs)%nat ->
  interp1 xs ys (nth k xs 0) == nth k ys 0.
Proof. exact interp_at_knot. Qed.
Print Assumptions interp_exact_at_knots.
Theorem interp_is_chord : forall xs ys k t,
  ascending xs -> length xs = length ys -> (S k < length xs)%nat -> nth k xs 0 <= t -> t <= nth (S k) xs 0 ->
  interp1 xs ys t == nth k ys 0 + (nth (S k) ys 0 - nth k ys 0) * (t - nth k xs 0) / (nth (S k) xs 0 - nth k xs 0)
  /\ Qmin (nth k ys 0) (nth (S k) ys 0) <= interp1 xs ys t <= Qmax (nth k ys 0) (nth (S k) ys 0).
Proof. intros. split; [apply interp_between; auto | apply interp_between_bounds; auto]. Qed.
Print Assumptions interp_is_chord.
Theorem interp_linear_in_values : forall xs a b u v t, length u = length v ->
  interp1 xs (vadd (vscale a u) (vscale b v)) t == a * interp1 xs u t + b * interp1 xs v t.
Proof. exact interp_linear. Qed.
Print Assumptions interp_linear_in_values.

(* arrays that already share a domain are returned unchanged; non-overlapping (or too narrowly
   overlapping) domains are rejected, and only those *)
Theorem equal_domains_unchanged : forall ds arrs, all_equal_domains ds = true -> equalize ds arrs = Ok (nth 0 ds [], arrs).
Proof. exact equal_domains_identity. Qed.
Print Assumptions equal_domains_unchanged.
Theorem rejects_iff_no_overlap : forall ds arrs lo hi st, all_equal_domains ds = false -> bounds_and_diff ds = (lo, hi, st) ->
  (equalize ds arrs = Err ValueError <-> (hi <= lo \/ hi - lo < st)).
Proof. exact rejects_iff. Qed.
Print Assumptions rejects_iff_no_overlap.
Theorem equalized_domain_is_the_grid : forall ds arrs lo hi st nd out, all_equal_domains ds = false -> bounds_and_diff ds = (lo, hi, st) ->
  equalize ds arrs = Ok (nd, out) -> nd = arange_with_interval lo hi st /\ length out = Nat.min (length ds) (length arrs).
Proof. exact equalize_grid. Qed.
Print Assumptions equalized_domain_is_the_grid.

(* estimator capture with a foreign signal domain == capture of the interpolated signal and
   interpolated filters on the common grid (definition of est_capture, stated for the record) *)
Theorem capture_on_own_domain : forall df F dsig S nd F' S', equalize [df; dsig] [F; S] = Ok (nd, [F'; S']) ->
  est_capture df F dsig S = Ok (cap22 (Xs nd) true F' S').
Proof. intros df F dsig S nd F' S' H. unfold est_capture. rewrite H. reflexivity. Qed.
Print Assumptions capture_on_own_domain.

(* The stricter reading "the step CLOSEST IN SIZE to the coarsest step that fits" is not what the
   code does: overlap 29/20 of the step gives one interval (1.45 step) although two intervals of
   0.725 step are closer in size.  Recorded for transparency; the check does not demand it. *)
Theorem closest_step_size_refuted :
  exists lo hi st, length (arange_with_interval lo hi st) = 2%nat /\
     Qabs ((hi - lo) / 2 - st) < Qabs ((hi - lo) / 1 - st).
Proof. exists 0, (29#20), 1. split; [vm_compute; reflexivity | vm_compute; reflexivity]. Qed.
Print Assumptions closest_step_size_refuted.

Example interp_concrete : interp1 [0; 1; 3] [0; 10; 30] (2) == 20 /\ ascending [0; 1; 3].
Proof. split; [vm_compute; reflexivity | simpl; repeat split; reflexivity]. Qed.
