(* Props/C10.v — the adaptive fit scales intensity and chroma uniformly and stays inside the gamut. *)
From Coq Require Import QArith Qabs Qminmax List Bool Arith.
From DV Require Import Base.QVec Run.Verdict Model.Linear Cert.Duality Cert.Qp Model.Adaptive Proofs.AdaptiveP.
Import ListNotations.
Open Scope Q_scope.

(* every target splits into its total along the neutral direction and an offset with zero total *)
Theorem target_decomposition : forall neutral b, length neutral = length b ->
  veq b (vadd (neutral_point neutral b) (brad neutral b)).
Proof. exact Proofs.AdaptiveP.target_decomposition. Qed.
Print Assumptions target_decomposition.
Theorem offset_has_zero_total : forall neutral b, length neutral = length b -> ~ sumQ neutral == 0 ->
  sumQ (brad neutral b) == 0 /\ sumQ (neutral_point neutral b) == sumQ b.
Proof. intros; split; [apply radial_part_has_zero_total | apply neutral_point_has_target_total]; auto. Qed.
Print Assumptions offset_has_zero_total.

(* a stacked constraint row acts on the intensities of ITS sample and on the two common scales only *)
Theorem row_acts_on_own_sample : forall S n i v c0 c1 (X : mat) s0 s1,
  length X = S -> Forall (fun x => length x = n) X -> (i < S)%nat -> length v = n ->
  dot (zrow S n i v c0 c1) (concat X ++ [s0; s1]) == dot v (nthV X i) + c0 * s0 + c1 * s1.
Proof. exact zrow_action. Qed.
Print Assumptions row_acts_on_own_sample.
Theorem column_sums_give_total_capture : forall A' n x, rect n A' -> length x = n -> dot (colsumA A' n) x == sumQ (matvec A' x).
Proof. exact colsum_action. Qed.
Print Assumptions column_sums_give_total_capture.

(* with zero deltas, scales (1,1) are feasible for a sample exactly when its target is reproduced:
   hence 'unity' returns (1,1) whenever all targets are in gamut *)
Theorem unity_iff_exact_reproduction : forall A' base' x neutral b,
  length base' = length A' -> length b = length A' -> length neutral = length A' -> ~ sumQ neutral == 0 ->
  (total_ok A' base' x b 1 0 /\ radial_ok A' base' x neutral b 1 1 0) <-> veq (predict A' base' x) b.
Proof. exact unity_means_exact_reproduction. Qed.
Print Assumptions unity_iff_exact_reproduction.

(* (C) a passing verdict: no feasible (intensities, scales) has a better objective ('unity': closest to (1,1);
   'max': largest weighted sum) — over ALL points of the linear programme built by the formulation model *)
Theorem adaptive_scales_are_optimal : forall c : acase, averdict c = true ->
  forall z, feasible (q_inst (a_qcase c)) z ->
    objective (q_obj (a_qcase c)) (q_x (a_qcase c)) <= objective (q_obj (a_qcase c)) z + a_tol_obj c.
Proof.
  intros c H z Hz. unfold averdict in H. rewrite !Bool.andb_true_iff in H. destruct H as [[[H _] _] _].
  exact (qverdict_sound (a_qcase c) H z Hz).
Qed.
Print Assumptions adaptive_scales_are_optimal.
