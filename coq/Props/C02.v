(* Props/C02.v — a registered system is the exact linear model of the receptor responses. *)
From Coq Require Import QArith List.
From DV Require Import Base.QVec Run.Verdict Model.Capture Model.Linear Model.Estimator Proofs.EstimatorP.
Import ListNotations.
Open Scope Q_scope.

(* capture predicted from intensities x  ==  capture of the mixed spectrum sum_k x_k source_k,
   for every number of filters, sources and domain points, and each integration rule *)
Theorem system_capture_is_mixture : forall d F S x nd, rect nd S -> rect nd F ->
  veq (system_capture (sysA d F S) x) (capture_all d F (mixture nd S x)).
Proof. exact system_capture_is_mixture_lemma. Qed.
Print Assumptions system_capture_is_mixture.

(* relative capture == K (Q + baseline): the matrix route (apply_linear_transform + predict,
   used by every fit and gamut query) agrees with the query-time formula for scalar,
   per-receptor and matrix K *)
Theorem relative_is_K_Q_plus_b : forall K A base x n,
  rect n A -> length base = length A -> Kshape_ok K (length A) ->
  veq (predict (transA K A n) (transB K base) x) (rel K base (system_capture A x)).
Proof. exact relative_is_K_Q_plus_b_lemma. Qed.
Print Assumptions relative_is_K_Q_plus_b.

(* adapting to a background (replace, baseline included — the default): its relative capture is 1 *)
Theorem background_adapts_to_one : forall Kold qb base,
  length qb = length base -> Forall (fun a => ~ a == 0) (vadd qb base) ->
  veq (rel (register_adapt Kold qb base true false) base qb) (repeat 1 (length qb)).
Proof. exact background_adapts_to_one_lemma. Qed.
Print Assumptions background_adapts_to_one.

Theorem background_adapts_to_one_zero_baseline : forall Kold qb n,
  length qb = n -> Forall (fun a => ~ a == 0) qb ->
  veq (rel (register_adapt Kold qb (vzero n) false false) (vzero n) qb) (repeat 1 n).
Proof. exact background_adapts_nobase_lemma. Qed.
Print Assumptions background_adapts_to_one_zero_baseline.

(* the clause is about REPLACING adaptation: with add=True it is false (witness) *)
Theorem add_mode_refuted :
  exists Kold qb base, length qb = length base /\ Forall (fun a => ~ a == 0) (vadd qb base) /\
    ~ veq (rel (register_adapt Kold qb base true true) base qb) (repeat 1 (length qb)).
Proof. exact add_refuted_lemma. Qed.
Print Assumptions add_mode_refuted.

Example adapt_hyps_met : length [3#2; 2] = length [1#2; 0] /\ Forall (fun a => ~ a == 0) (vadd [3#2; 2] [1#2; 0]).
Proof. split; [reflexivity | repeat constructor; discriminate]. Qed.
