(* Props/C03.v — gamut membership is exact: in-gamut iff reproducible by in-bound intensities. *)
From Coq Require Import QArith Qabs List Bool.
From DV Require Import Base.QVec Run.Verdict Model.Linear Cert.Hull Model.Gamut Proofs.GamutP Proofs.ZonoP.
Import ListNotations.
Open Scope Q_scope.

(* (F) the fact dreye's whole approach rests on: for finite bounds, the set of captures
   reproducible by in-bound intensities IS the convex hull of the images of the 2^n corners of the
   intensity box — for every capture matrix, K/baseline (folded into A', base'), bounds and target *)
Theorem zonotope_is_hull : forall A' base' lb ub b n,
  rect n A' -> length base' = length A' -> length lb = n -> length ub = n -> Forall2 Qle lb ub ->
  (reproducible A' base' (somes lb) (somes ub) b <-> in_conv (get_P A' base' lb ub) (length A') b).
Proof. exact Proofs.ZonoP.zonotope_is_hull. Qed.
Print Assumptions zonotope_is_hull.

(* (F) subtracting the common offset min(P) from P and the target (in_hull_from_A) changes nothing *)
Theorem offset_invariant : forall P m b off, Forall (fun p => length p = m) P -> length b = m -> length off = m ->
  (in_conv P m b <-> in_conv (map (fun p => vsub p off) P) m (vsub b off)).
Proof. exact Proofs.ZonoP.offset_invariant. Qed.
Print Assumptions offset_invariant.

(* (F) chromatic gamut = cone over the gamut: b/|b|_1 is a convex combination of the p_i/|p_i|_1
   iff b is a non-negative combination of the p_i *)
Theorem chromatic_iff_cone : forall P m b, Forall (fun p => length p = m /\ 0 < sumQ p) P -> length b = m -> 0 < sumQ b ->
  (in_conv (map l1normalise P) m (l1normalise b) <-> in_cone P m b).
Proof. exact Proofs.ZonoP.chromatic_iff_cone. Qed.
Print Assumptions chromatic_iff_cone.

(* (C) certificates: what a passing verdict on a real answer means *)
Theorem member_certificate_sound : forall A' base' lb ub b x tol, check_member A' base' lb ub b x tol = true ->
  in_boxo x lb ub /\ max_absdiff_le tol (predict A' base' x) b.
Proof. exact member_cert_sound. Qed.
Print Assumptions member_certificate_sound.
Theorem separation_certificate_sound : forall A' base' lb ub n b y mu, check_sep A' base' lb ub n b y mu = true ->
  forall x, in_boxo x lb ub -> length x = n -> dot y (predict A' base' x) + mu <= dot y b.
Proof. exact sep_cert_sound. Qed.
Print Assumptions separation_certificate_sound.
Theorem answers_are_certified : forall c : case, verdict c = true -> c_norm c = false ->
  (c_answer c = true -> exists x, in_boxo x (c_lb c) (c_ub c) /\
       max_absdiff_le (match c_kind c with O => 1 # 1000000000 | _ => c_tol c end) (predict (A' c) (base' c) x) (c_b c))
  /\ (c_kind c = 1%nat -> c_answer c = false /\ ~ reproducible (A' c) (base' c) (c_lb c) (c_ub c) (c_b c))
  /\ (c_kind c = 0%nat -> c_answer c = true /\ strictly_inside (c_x c) (c_lb c) (c_ub c) (c_margin c) = true).
Proof. exact gamut_verdict_sound. Qed.
Print Assumptions answers_are_certified.
Theorem chromatic_rejections_are_certified : forall c : case, verdict c = true -> c_norm c = true -> c_kind c = 1%nat ->
  c_answer c = false /\
  forall x t, in_boxo x (c_lb c) (c_ub c) -> length x = c_n c -> 0 <= t -> ~ veq (vscale t (predict (A' c) (base' c) x)) (c_b c).
Proof. exact chromatic_verdict_sound. Qed.
Print Assumptions chromatic_rejections_are_certified.

Example corners_order : corners [0; 1] [2; 3] = [[0; 1]; [0; 3]; [2; 1]; [2; 3]].
Proof. reflexivity. Qed.
