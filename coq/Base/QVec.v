(* Base/QVec.v — vectors and matrices as lists over Q (row major, as numpy).
   Library file: definitions + lemmas used by every model.  No axioms. *)
From Coq Require Import QArith Qabs Qminmax List Lia Lqa Setoid Morphisms.
Import ListNotations.
Open Scope Q_scope.

Definition vec := list Q.
Definition mat := list vec.

Fixpoint sumQ (v : vec) : Q :=
  match v with [] => 0 | a :: v' => a + sumQ v' end.

Fixpoint dot (u v : vec) : Q :=
  match u, v with
  | a :: u', b :: v' => a * b + dot u' v'
  | _, _ => 0
  end.

Fixpoint vadd (u v : vec) : vec :=
  match u, v with a :: u', b :: v' => (a + b) :: vadd u' v' | _, _ => [] end.
Fixpoint vsub (u v : vec) : vec :=
  match u, v with a :: u', b :: v' => (a - b) :: vsub u' v' | _, _ => [] end.
Fixpoint vmul (u v : vec) : vec :=
  match u, v with a :: u', b :: v' => (a * b) :: vmul u' v' | _, _ => [] end.
Definition vscale (t : Q) (u : vec) : vec := map (Qmult t) u.
Definition vshift (t : Q) (u : vec) : vec := map (Qplus t) u.
Definition vzero (n : nat) : vec := repeat 0 n.
Definition sq (v : vec) : Q := dot v v.

Definition matvec (M : mat) (x : vec) : vec := map (fun r => dot r x) M.
(* G^T lam = sum_i lam_i * row_i, as a vector of length n *)
Fixpoint tmatvec (G : mat) (lam : vec) (n : nat) : vec :=
  match G, lam with
  | row :: G', l :: lam' => vadd (vscale l row) (tmatvec G' lam' n)
  | _, _ => vzero n
  end.
(* transpose of a matrix with n columns *)
Fixpoint transpose (M : mat) (n : nat) : mat :=
  match M with
  | [] => repeat [] n
  | row :: M' => map (fun p => fst p :: snd p) (combine row (transpose M' n))
  end.
Definition matmul (A B : mat) (ncolB : nat) : mat :=
  map (fun r => tmatvec B r ncolB) A.

Definition nthQ (v : vec) (i : nat) : Q := nth i v 0.
Definition nthV (M : mat) (i : nat) : vec := nth i M [].

Definition veq (u v : vec) : Prop := Forall2 Qeq u v.
Definition meq (A B : mat) : Prop := Forall2 veq A B.

Definition rectb (m n : nat) (M : mat) : bool :=
  Nat.eqb (length M) m && forallb (fun r => Nat.eqb (length r) n) M.
Definition rect (n : nat) (M : mat) : Prop := Forall (fun r => length r = n) M.

(* ---------- setoid structure ---------- *)
Global Instance veq_Equiv : Equivalence veq.
Proof.
  split.
  - intros u. induction u; constructor; auto. reflexivity.
  - intros u v H. induction H; constructor; auto. symmetry; auto.
  - intros u v w H. revert w. induction H; intros w Hw; inversion Hw; subst; constructor.
    + etransitivity; eauto.
    + apply IHForall2; auto.
Qed.

Lemma veq_length u v : veq u v -> length u = length v.
Proof. intros H; induction H; simpl; auto. Qed.

Global Instance sumQ_Proper : Proper (veq ==> Qeq) sumQ.
Proof. intros u v H. induction H; simpl; [reflexivity|]. rewrite H, IHForall2. reflexivity. Qed.

Global Instance dot_Proper : Proper (veq ==> veq ==> Qeq) dot.
Proof.
  intros u u' Hu. induction Hu; intros v v' Hv; simpl; [reflexivity|].
  destruct Hv; [reflexivity|]. rewrite H, H0, (IHHu _ _ Hv). reflexivity.
Qed.

Global Instance vadd_Proper : Proper (veq ==> veq ==> veq) vadd.
Proof.
  intros u u' Hu. induction Hu; intros v v' Hv; simpl; [constructor|].
  destruct Hv; constructor. rewrite H, H0; reflexivity. apply IHHu; auto.
Qed.
Global Instance vsub_Proper : Proper (veq ==> veq ==> veq) vsub.
Proof.
  intros u u' Hu. induction Hu; intros v v' Hv; simpl; [constructor|].
  destruct Hv; constructor. rewrite H, H0; reflexivity. apply IHHu; auto.
Qed.
Global Instance vmul_Proper : Proper (veq ==> veq ==> veq) vmul.
Proof.
  intros u u' Hu. induction Hu; intros v v' Hv; simpl; [constructor|].
  destruct Hv; constructor. rewrite H, H0; reflexivity. apply IHHu; auto.
Qed.
Global Instance vscale_Proper : Proper (Qeq ==> veq ==> veq) vscale.
Proof.
  intros s t Hst u v H. unfold vscale. induction H; simpl; constructor; auto.
  rewrite Hst, H. reflexivity.
Qed.
Global Instance sq_Proper : Proper (veq ==> Qeq) sq.
Proof. intros u v H. unfold sq. rewrite H. reflexivity. Qed.

(* ---------- lengths ---------- *)
Lemma len_vscale t u : length (vscale t u) = length u. Proof. apply map_length. Qed.
Lemma len_vshift t u : length (vshift t u) = length u. Proof. apply map_length. Qed.
Lemma len_vzero n : length (vzero n) = n. Proof. apply repeat_length. Qed.
Lemma len_vadd u v : length u = length v -> length (vadd u v) = length u.
Proof. revert v; induction u; intros [|b v] H; simpl in *; try discriminate; auto. Qed.
Lemma len_vsub u v : length u = length v -> length (vsub u v) = length u.
Proof. revert v; induction u; intros [|b v] H; simpl in *; try discriminate; auto. Qed.
Lemma len_vmul u v : length u = length v -> length (vmul u v) = length u.
Proof. revert v; induction u; intros [|b v] H; simpl in *; try discriminate; auto. Qed.
Lemma len_matvec M x : length (matvec M x) = length M. Proof. apply map_length. Qed.
Lemma len_tmatvec G lam n : rect n G -> length (tmatvec G lam n) = n.
Proof. revert lam; induction G as [|row G IH]; intros [|l lam] HG; simpl; try apply repeat_length.
  inversion HG; subst. rewrite len_vadd; rewrite len_vscale; auto. rewrite IH; auto. Qed.

(* ---------- algebra of sumQ / dot ---------- *)
Lemma sumQ_app u v : sumQ (u ++ v) == sumQ u + sumQ v.
Proof. induction u; simpl; [ring|]. rewrite IHu. ring. Qed.
Lemma sumQ_vadd u v : length u = length v -> sumQ (vadd u v) == sumQ u + sumQ v.
Proof. revert v; induction u as [|a u IH]; intros [|b v] H; simpl in *; try discriminate; try ring.
  rewrite IH by lia. ring. Qed.
Lemma sumQ_vsub u v : length u = length v -> sumQ (vsub u v) == sumQ u - sumQ v.
Proof. revert v; induction u as [|a u IH]; intros [|b v] H; simpl in *; try discriminate; try ring.
  rewrite IH by lia. ring. Qed.
Lemma sumQ_vscale t u : sumQ (vscale t u) == t * sumQ u.
Proof. induction u; simpl; [ring|]. rewrite IHu. ring. Qed.
Lemma sumQ_vzero n : sumQ (vzero n) == 0.
Proof. induction n; simpl; [reflexivity|]. unfold vzero in IHn. rewrite IHn. ring. Qed.
Lemma sumQ_nonneg u : Forall (fun a => 0 <= a) u -> 0 <= sumQ u.
Proof. induction 1; simpl; lra. Qed.

Lemma dot_nil_r u : dot u [] == 0. Proof. destruct u; reflexivity. Qed.
Lemma dot_comm u v : dot u v == dot v u.
Proof. revert v; induction u as [|a u IH]; intros [|b v]; simpl; try reflexivity. rewrite IH. ring. Qed.
Lemma dot_vzero_l n x : dot (vzero n) x == 0.
Proof. revert x; induction n; intros [|a x]; simpl; try reflexivity. unfold vzero in IHn. rewrite IHn. ring. Qed.
Lemma dot_vzero_r n x : dot x (vzero n) == 0.
Proof. rewrite dot_comm. apply dot_vzero_l. Qed.
Lemma dot_vadd_l u v x : length u = length v -> dot (vadd u v) x == dot u x + dot v x.
Proof. revert v x; induction u as [|a u IH]; intros [|b v] [|c x] H; simpl in *; try discriminate; try ring.
  rewrite IH by lia. ring. Qed.
Lemma dot_vadd_r u v x : length u = length v -> dot x (vadd u v) == dot x u + dot x v.
Proof. intros H. rewrite dot_comm, dot_vadd_l by auto. rewrite (dot_comm u), (dot_comm v). reflexivity. Qed.
Lemma dot_vsub_l u v x : length u = length v -> dot (vsub u v) x == dot u x - dot v x.
Proof. revert v x; induction u as [|a u IH]; intros [|b v] [|c x] H; simpl in *; try discriminate; try ring.
  rewrite IH by lia. ring. Qed.
Lemma dot_vsub_r u v x : length u = length v -> dot x (vsub u v) == dot x u - dot x v.
Proof. intros H. rewrite dot_comm, dot_vsub_l by auto. rewrite (dot_comm u), (dot_comm v). reflexivity. Qed.
Lemma dot_vscale_l t u x : dot (vscale t u) x == t * dot u x.
Proof. revert x; induction u as [|a u IH]; intros [|c x]; simpl; try ring. rewrite IH. ring. Qed.
Lemma dot_vscale_r t u x : dot x (vscale t u) == t * dot x u.
Proof. rewrite dot_comm, dot_vscale_l, dot_comm. reflexivity. Qed.
Lemma dot_vmul_l w u x : dot (vmul w u) x == dot w (vmul u x).
Proof. revert u x; induction w as [|a w IH]; intros [|b u] [|c x]; simpl; try ring. rewrite IH. ring. Qed.
Lemma dot_ones_sum u : dot (repeat 1 (length u)) u == sumQ u.
Proof. induction u; simpl; [reflexivity|]. rewrite IHu. ring. Qed.

Lemma sq_nonneg v : 0 <= sq v.
Proof. unfold sq. induction v as [|a v IH]; simpl; [lra|].
  assert (0 <= a*a) by (destruct (Qlt_le_dec a 0); nra). lra. Qed.

Lemma dot_sub_sq u v : length u = length v ->
  sq u == sq v + 2 * dot v (vsub u v) + sq (vsub u v).
Proof.
  unfold sq. revert v; induction u as [|a u IH]; intros [|b v] H; simpl in *; try discriminate; try ring.
  assert (H' : length u = length v) by lia. specialize (IH v H').
  set (X := dot u u) in *. set (Y := dot v v) in *.
  set (Z := dot v (vsub u v)) in *. set (W := dot (vsub u v) (vsub u v)) in *.
  rewrite IH. ring.
Qed.

(* convexity of the squared norm: tangent lower bound *)
Lemma convex_lower u v : length u = length v -> sq v + 2 * dot v (vsub u v) <= sq u.
Proof. intros H. rewrite (dot_sub_sq u v H). pose proof (sq_nonneg (vsub u v)). lra. Qed.

Lemma sq_expand t u v : length u = length v ->
  sq (vsub (vscale t u) v) == t*t*sq u - 2*t*dot u v + sq v.
Proof.
  unfold sq, vscale. revert v; induction u as [|a u IH]; intros [|b v] H; simpl in *; try discriminate; try ring.
  assert (H' : length u = length v) by lia. specialize (IH v H').
  set (X := dot (vsub _ _) (vsub _ _)) in *. set (U := dot u u) in *. set (P := dot u v) in *. set (V := dot v v) in *.
  rewrite IH. ring.
Qed.

Lemma sq_zero_dot u v : length u = length v -> sq u == 0 -> dot u v == 0.
Proof.
  unfold sq. revert v; induction u as [|a u IH]; intros [|b v] H H0; simpl in *; try discriminate; try lra.
  assert (H' : length u = length v) by lia.
  pose proof (sq_nonneg u) as Hu. unfold sq in Hu.
  assert (Haa : 0 <= a*a) by (destruct (Qlt_le_dec a 0); nra).
  assert (Ha : a*a == 0) by lra. assert (Hu0 : dot u u == 0) by lra.
  assert (Ha0 : a == 0) by (destruct (Qeq_dec a 0) as [|N]; [assumption|]; exfalso; destruct (Qlt_le_dec a 0); nra).
  rewrite (IH v H' Hu0). rewrite Ha0. ring.
Qed.

Lemma sq_zero_all u : sq u == 0 -> Forall (fun a => a == 0) u.
Proof.
  unfold sq. induction u as [|a u IH]; intros H; constructor; simpl in H.
  - pose proof (sq_nonneg u) as Hu. unfold sq in Hu.
    assert (Haa : 0 <= a*a) by (destruct (Qlt_le_dec a 0); nra).
    destruct (Qeq_dec a 0) as [|N]; [assumption|]; exfalso; destruct (Qlt_le_dec a 0); nra.
  - apply IH. pose proof (sq_nonneg u) as Hu. unfold sq in Hu.
    assert (Haa : 0 <= a*a) by (destruct (Qlt_le_dec a 0); nra). lra.
Qed.

Theorem cauchy_schwarz u v : length u = length v -> dot u v * dot u v <= sq u * sq v.
Proof.
  intros H. destruct (Qeq_dec (sq u) 0) as [E|N].
  - rewrite (sq_zero_dot u v H E), E. lra.
  - pose proof (sq_nonneg u) as HU. assert (0 < sq u) as HUp by lra. clear N.
    pose proof (sq_nonneg (vsub (vscale (dot u v / sq u) u) v)) as Hs.
    rewrite (sq_expand _ u v H) in Hs.
    set (U := sq u) in *. set (P := dot u v) in *. set (V := sq v) in *.
    assert (E : P / U * (P / U) * U - 2 * (P / U) * P + V == V - P*P/U) by (field; lra).
    rewrite E in Hs.
    assert (Hle : P*P/U <= V) by lra.
    assert (Heq : P*P == (P*P/U)*U) by (field; lra).
    rewrite Heq. nra.
Qed.

Lemma le_of_sq_le (a s : Q) : 0 <= s -> a*a <= s*s -> a <= s.
Proof. intros. destruct (Qlt_le_dec s a); [|assumption]. nra. Qed.

(* a . b <= s * r whenever |a|^2 <= s^2 and |b|^2 <= r^2 *)
Lemma dot_le_bound u v s r : length u = length v -> 0 <= s -> 0 <= r ->
  sq u <= s*s -> sq v <= r*r -> dot u v <= s * r.
Proof.
  intros HL Hs Hr Hu Hv. apply le_of_sq_le; [nra|].
  pose proof (cauchy_schwarz u v HL). pose proof (sq_nonneg u). pose proof (sq_nonneg v).
  assert (sq u * sq v <= (s*s)*(r*r)) by nra.
  assert (s*r*(s*r) == (s*s)*(r*r)) as E by ring. rewrite E. lra.
Qed.

(* ---------- matrices ---------- *)
Lemma transpose_id G lam x n : rect n G -> length lam = length G ->
  dot lam (matvec G x) == dot (tmatvec G lam n) x.
Proof.
  revert lam; induction G as [|row G IH]; intros [|l lam] HG HL; simpl in *; try discriminate.
  - rewrite dot_vzero_l. reflexivity.
  - inversion HG; subst. rewrite dot_vadd_l, dot_vscale_l, IH; auto; try reflexivity.
    rewrite len_vscale, len_tmatvec; auto.
Qed.

Lemma matvec_vadd M x y : length x = length y ->
  veq (matvec M (vadd x y)) (vadd (matvec M x) (matvec M y)).
Proof. intros H. induction M as [|r M IH]; simpl; constructor; auto. apply dot_vadd_r; auto. Qed.
Lemma matvec_vsub M x y : length x = length y ->
  veq (matvec M (vsub x y)) (vsub (matvec M x) (matvec M y)).
Proof. intros H. induction M as [|r M IH]; simpl; constructor; auto. apply dot_vsub_r; auto. Qed.
Lemma matvec_vscale M t x : veq (matvec M (vscale t x)) (vscale t (matvec M x)).
Proof. induction M as [|r M IH]; simpl; constructor; auto. apply dot_vscale_r. Qed.

Global Instance matvec_Proper M : Proper (veq ==> veq) (matvec M).
Proof. intros x y H. induction M; simpl; constructor; auto. rewrite H. reflexivity. Qed.

(* ---------- boxes ---------- *)
Fixpoint in_box (x lb ub : vec) : Prop :=
  match x, lb, ub with
  | a :: x', l :: lb', u :: ub' => l <= a /\ a <= u /\ in_box x' lb' ub'
  | [], [], [] => True
  | _, _, _ => False
  end.
Fixpoint in_boxb (x lb ub : vec) : bool :=
  match x, lb, ub with
  | a :: x', l :: lb', u :: ub' => Qle_bool l a && Qle_bool a u && in_boxb x' lb' ub'
  | [], [], [] => true
  | _, _, _ => false
  end.
Lemma in_boxb_spec x lb ub : in_boxb x lb ub = true <-> in_box x lb ub.
Proof.
  revert lb ub; induction x as [|a x IH]; intros [|l lb] [|u ub]; simpl; try tauto; try (split; [discriminate|tauto]).
  rewrite !Bool.andb_true_iff, !Qle_bool_iff, IH. tauto.
Qed.
Lemma in_box_len x lb ub : in_box x lb ub -> length x = length lb /\ length x = length ub.
Proof. revert lb ub; induction x as [|a x IH]; intros [|l lb] [|u ub]; simpl; try tauto.
  intros (_ & _ & H). destruct (IH _ _ H). lia. Qed.

Fixpoint boxmin (r lb ub : vec) : Q :=
  match r, lb, ub with
  | a :: r', l :: lb', u :: ub' => Qmin (a*l) (a*u) + boxmin r' lb' ub'
  | _, _, _ => 0
  end.
Fixpoint boxmax (r lb ub : vec) : Q :=
  match r, lb, ub with
  | a :: r', l :: lb', u :: ub' => Qmax (a*l) (a*u) + boxmax r' lb' ub'
  | _, _, _ => 0
  end.
Lemma boxmin_le r x lb ub : length r = length x -> in_box x lb ub -> boxmin r lb ub <= dot r x.
Proof.
  revert x lb ub; induction r as [|a r IH]; intros [|c x] [|l lb] [|u ub] HL HB; simpl in *; try discriminate; try tauto; try lra.
  destruct HB as (H1 & H2 & HB). specialize (IH x lb ub ltac:(lia) HB).
  assert (Qmin (a*l) (a*u) <= a*c).
  { destruct (Qlt_le_dec a 0).
    - apply Qle_trans with (a*u); [apply Q.le_min_r| nra].
    - apply Qle_trans with (a*l); [apply Q.le_min_l| nra]. }
  lra.
Qed.
Lemma boxmax_ge r x lb ub : length r = length x -> in_box x lb ub -> dot r x <= boxmax r lb ub.
Proof.
  revert x lb ub; induction r as [|a r IH]; intros [|c x] [|l lb] [|u ub] HL HB; simpl in *; try discriminate; try tauto; try lra.
  destruct HB as (H1 & H2 & HB). specialize (IH x lb ub ltac:(lia) HB).
  assert (a*c <= Qmax (a*l) (a*u)).
  { destruct (Qlt_le_dec a 0).
    - apply Qle_trans with (a*l); [nra | apply Q.le_max_l].
    - apply Qle_trans with (a*u); [nra | apply Q.le_max_r]. }
  lra.
Qed.

(* ---------- misc list facts ---------- *)
Lemma nthQ_map_dot M x i : (i < length M)%nat -> nthQ (matvec M x) i == dot (nthV M i) x.
Proof.
  revert i; induction M as [|r M IH]; intros [|i] H; simpl in *; try lia; try reflexivity.
  apply IH. lia.
Qed.

Lemma Forall2_nth_Q u v i : veq u v -> nthQ u i == nthQ v i.
Proof. intros H; revert i; induction H; intros [|i]; simpl; try reflexivity; auto. apply IHForall2. Qed.

(* ---------- Cauchy-Schwarz as a two-sided bound ---------- *)
Lemma sq_vscale t u : sq (vscale t u) == t * t * sq u.
Proof. unfold sq. rewrite dot_vscale_l, dot_vscale_r. ring. Qed.
Lemma dot_abs_bound u v s r : length u = length v -> 0 <= s -> 0 <= r ->
  sq u <= s*s -> sq v <= r*r -> - (s * r) <= dot u v /\ dot u v <= s * r.
Proof.
  intros HL Hs Hr Hu Hv. split; [|apply dot_le_bound; auto].
  assert (H : dot (vscale (-1) u) v <= s * r).
  { apply dot_le_bound; auto. rewrite len_vscale; auto. rewrite sq_vscale. lra. }
  rewrite dot_vscale_l in H. lra.
Qed.

(* ---------- boxes with possibly infinite bounds (None = unbounded on that side) ---------- *)
Fixpoint in_boxo (x : vec) (lb ub : list (option Q)) : Prop :=
  match x, lb, ub with
  | a :: x', l :: lb', u :: ub' =>
      (match l with Some lq => lq <= a | None => True end) /\
      (match u with Some uq => a <= uq | None => True end) /\ in_boxo x' lb' ub'
  | [], [], [] => True
  | _, _, _ => False
  end.
Fixpoint in_boxob (tol : Q) (x : vec) (lb ub : list (option Q)) : bool :=
  match x, lb, ub with
  | a :: x', l :: lb', u :: ub' =>
      (match l with Some lq => Qle_bool (lq - tol) a | None => true end) &&
      (match u with Some uq => Qle_bool a (uq + tol) | None => true end) && in_boxob tol x' lb' ub'
  | [], [], [] => true
  | _, _, _ => false
  end.
Lemma in_boxo_len x lb ub : in_boxo x lb ub -> length x = length lb /\ length x = length ub.
Proof. revert lb ub; induction x as [|a x IH]; intros [|l lb] [|u ub]; simpl; try tauto.
  intros (_ & _ & H). destruct (IH _ _ H). lia. Qed.
Lemma in_boxob_spec x lb ub : in_boxob 0 x lb ub = true <-> in_boxo x lb ub.
Proof.
  revert lb ub; induction x as [|a x IH]; intros [|l lb] [|u ub]; simpl; try tauto; try (split; [discriminate|tauto]).
  rewrite !Bool.andb_true_iff, IH. destruct l, u; rewrite ?Qle_bool_iff; intuition; try lra.
Qed.
(* minimum of r.x over the box; None when unbounded below *)
Fixpoint boxmino (r : vec) (lb ub : list (option Q)) : option Q :=
  match r, lb, ub with
  | a :: r', l :: lb', u :: ub' =>
      match boxmino r' lb' ub' with
      | None => None
      | Some t =>
          if Qlt_le_dec a 0 then match u with Some uq => Some (a * uq + t) | None => None end
          else if Qlt_le_dec 0 a then match l with Some lq => Some (a * lq + t) | None => None end
          else Some t
      end
  | [], [], [] => Some 0
  | _, _, _ => None
  end.
Lemma boxmino_le r x lb ub t : boxmino r lb ub = Some t -> in_boxo x lb ub -> t <= dot r x.
Proof.
  revert x lb ub t; induction r as [|a r IH]; intros [|c x] [|l lb] [|u ub] t HM HB; simpl in *;
    try discriminate; try tauto.
  - inversion HM; subst. lra.
  - destruct HB as (H1 & H2 & HB).
    destruct (boxmino r lb ub) as [t'|] eqn:E; [|discriminate].
    specialize (IH x lb ub t' E HB).
    destruct (Qlt_le_dec a 0) as [Ha|Ha].
    + destruct u as [uq|]; [|discriminate]. inversion HM; subst. nra.
    + destruct (Qlt_le_dec 0 a) as [Ha'|Ha'].
      * destruct l as [lq|]; [|discriminate]. inversion HM; subst. nra.
      * inversion HM; subst. assert (a == 0) by lra. nra.
Qed.
