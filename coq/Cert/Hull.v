(* Cert/Hull.v — gamut membership (C03): the gamut as the image of the intensity box, the corner
   points dreye hands to qhull, and certificate checkers for "inside" / "outside" answers. *)
From Coq Require Import QArith Qabs Qminmax List Bool Lia Lqa Setoid Morphisms.
From DV Require Import Base.QVec Run.Verdict Model.Linear.
Import ListNotations.
Open Scope Q_scope.

(* itertools.product([0,1], repeat=n) * (ub-lb) + lb : first coordinate varies slowest *)
Fixpoint corners (lb ub : vec) : list vec :=
  match lb, ub with
  | l :: lb', u :: ub' => map (cons l) (corners lb' ub') ++ map (cons u) (corners lb' ub')
  | _, _ => [[]]
  end.
(* convex.get_P_from_A for finite bounds (A', base' already transformed by K) *)
Definition get_P (A' : mat) (base' lb ub : vec) : mat := map (predict A' base') (corners lb ub).

(* spec: b is reproducible by in-bound intensities *)
Definition reproducible (A' : mat) (base' : vec) (lb ub : list (option Q)) (b : vec) : Prop :=
  exists x, in_boxo x lb ub /\ veq (predict A' base' x) b.
(* convex combination of a point list *)
Fixpoint comb (lam : vec) (P : mat) (m : nat) : vec :=
  match lam, P with
  | l :: lam', p :: P' => vadd (vscale l p) (comb lam' P' m)
  | _, _ => vzero m
  end.
Definition in_conv (P : mat) (m : nat) (b : vec) : Prop :=
  exists lam, length lam = length P /\ Forall (fun l => 0 <= l) lam /\ sumQ lam == 1 /\ veq (comb lam P m) b.

(* ---------- certificates ---------- *)
Fixpoint vclose_abs (tol : Q) (u v : vec) : bool :=
  match u, v with
  | [], [] => true
  | a :: u', b :: v' => Qle_bool (Qabs (a - b)) tol && vclose_abs tol u' v'
  | _, _ => false
  end.
Fixpoint max_absdiff_le (tol : Q) (u v : vec) : Prop :=
  match u, v with
  | [], [] => True
  | a :: u', b :: v' => Qabs (a - b) <= tol /\ max_absdiff_le tol u' v'
  | _, _ => False
  end.
Lemma vclose_abs_spec tol u v : vclose_abs tol u v = true -> max_absdiff_le tol u v.
Proof.
  revert v; induction u as [|a u IH]; intros [|b v]; simpl; try discriminate; auto.
  rewrite andb_true_iff, Qle_bool_iff. intros [H1 H2]; split; auto.
Qed.

(* "inside": an in-bound x whose model capture is within tol of b *)
Definition check_member (A' : mat) (base' : vec) (lb ub : list (option Q)) (b x : vec) (tol : Q) : bool :=
  in_boxob 0 x lb ub && vclose_abs tol (predict A' base' x) b.
Theorem member_cert_sound A' base' lb ub b x tol : check_member A' base' lb ub b x tol = true ->
  in_boxo x lb ub /\ max_absdiff_le tol (predict A' base' x) b.
Proof.
  unfold check_member. rewrite andb_true_iff. intros [H1 H2]. split.
  - apply in_boxob_spec; auto. - apply vclose_abs_spec; auto.
Qed.

(* "outside": a hyperplane y with  max_{x in box} y.(A'x + base') + mu <= y.b *)
Definition sep_gap (A' : mat) (base' : vec) (lb ub : list (option Q)) (n : nat) (b y : vec) : option Q :=
  match boxmino (vscale (-1) (tmatvec A' y n)) lb ub with
  | Some t => Some (dot y b - (- t + dot y base'))
  | None => None
  end.
Definition check_sep (A' : mat) (base' : vec) (lb ub : list (option Q)) (n : nat) (b y : vec) (mu : Q) : bool :=
  forallb (fun r => Nat.eqb (length r) n) A' && Nat.eqb (length y) (length A') && Nat.eqb (length base') (length A') &&
  Nat.eqb (length b) (length A') &&
  match sep_gap A' base' lb ub n b y with Some g => Qle_bool mu g | None => false end.
Theorem sep_cert_sound A' base' lb ub n b y mu : check_sep A' base' lb ub n b y mu = true ->
  forall x, in_boxo x lb ub -> length x = n -> dot y (predict A' base' x) + mu <= dot y b.
Proof.
  unfold check_sep, sep_gap. rewrite !andb_true_iff. intros [[[[HA Hy] Hb'] Hb] Hg] x Hx Hlx.
  apply Nat.eqb_eq in Hy, Hb', Hb.
  assert (HrA : rect n A').
  { unfold rect. rewrite forallb_forall in HA. apply Forall_forall. intros r Hr. apply Nat.eqb_eq; auto. }
  destruct (boxmino _ lb ub) as [t|] eqn:E; [|discriminate]. apply Qle_bool_iff in Hg.
  pose proof (boxmino_le _ x _ _ t E Hx) as Hm. rewrite dot_vscale_l in Hm.
  unfold predict. rewrite dot_vadd_r by (rewrite len_matvec; lia).
  rewrite (transpose_id A' y x n HrA Hy). lra.
Qed.
Corollary sep_not_reproducible A' base' lb ub n b y mu : check_sep A' base' lb ub n b y mu = true -> 0 < mu ->
  length lb = n -> ~ reproducible A' base' lb ub b.
Proof.
  intros Hc Hmu Hl [x [Hx Hv]].
  pose proof (sep_cert_sound _ _ _ _ _ _ _ _ Hc x Hx) as H.
  destruct (in_boxo_len _ _ _ Hx) as [H1 _]. specialize (H ltac:(lia)). rewrite Hv in H. lra.
Qed.

(* ---------- chromatic (L1-normalised) membership = membership in the cone over the gamut ---------- *)
(* b in the cone: t > 0 and in-bound x with  t * p(x) within tol (relative to the totals) of b *)
Definition check_cone_member (A' : mat) (base' : vec) (lb ub : list (option Q)) (b x : vec) (tol : Q) : bool :=
  let p := predict A' base' x in
  let s := sumQ p in let c := sumQ b in
  in_boxob 0 x lb ub && qlt 0 s && qlt 0 c && vclose_abs (tol * s * c) (vscale c p) (vscale s b).
(* outside the cone: y with y.p(x) <= 0 on the whole box and y.b >= mu > 0 *)
Definition check_cone_sep (A' : mat) (base' : vec) (lb ub : list (option Q)) (n : nat) (b y : vec) (mu : Q) : bool :=
  forallb (fun r => Nat.eqb (length r) n) A' && Nat.eqb (length y) (length A') && Nat.eqb (length base') (length A') &&
  match boxmino (vscale (-1) (tmatvec A' y n)) lb ub with
  | Some t => Qle_bool (- t + dot y base') 0 && Qle_bool mu (dot y b) && qlt 0 mu
  | None => false
  end.
Theorem cone_sep_sound A' base' lb ub n b y mu : check_cone_sep A' base' lb ub n b y mu = true ->
  forall x t, in_boxo x lb ub -> length x = n -> 0 <= t -> ~ veq (vscale t (predict A' base' x)) b.
Proof.
  unfold check_cone_sep. rewrite !andb_true_iff. intros [[[HA Hy] Hb'] Hg] x t Hx Hlx Ht Hv.
  apply Nat.eqb_eq in Hy, Hb'.
  assert (HrA : rect n A').
  { unfold rect. rewrite forallb_forall in HA. apply Forall_forall. intros r Hr. apply Nat.eqb_eq; auto. }
  destruct (boxmino _ lb ub) as [t0|] eqn:E; [|discriminate].
  rewrite !andb_true_iff in Hg. destruct Hg as [[H1 H2] H3].
  apply Qle_bool_iff in H1, H2. unfold qlt in H3. rewrite negb_true_iff in H3.
  assert (Hmu : 0 < mu). { destruct (Qlt_le_dec 0 mu); auto. apply Qle_bool_iff in q. congruence. }
  pose proof (boxmino_le _ x _ _ t0 E Hx) as Hm. rewrite dot_vscale_l in Hm.
  assert (Hp : dot y (predict A' base' x) <= 0).
  { unfold predict. rewrite dot_vadd_r by (rewrite len_matvec; lia).
    rewrite (transpose_id A' y x n HrA Hy). lra. }
  assert (Hb : dot y b == t * dot y (predict A' base' x)) by (rewrite <- Hv, dot_vscale_r; reflexivity).
  nra.
Qed.
