(* Cert/Duality.v — generic Lagrangian lower bound (weak duality) for the convex programmes
   dreye hands to cvxpy:
       minimise q(x)  s.t.  lb <= x <= ub (sides may be infinite),  G x <= h,
                            || M_k x - e_k ||_2 <= rho_k   (k = 1..K)
   A certificate (lam >= 0; y_k, s_k with |y_k|^2 <= s_k^2) and ANY tangent lower bound of q
   at a point x0 give a number L with  L <= q x  for EVERY feasible x.  No axioms. *)
From Coq Require Import QArith Qabs Qminmax List Lia Lqa Bool Setoid Morphisms.
From DV Require Import Base.QVec.
Import ListNotations.
Open Scope Q_scope.

Record cone := { cM : mat; ce : vec; crho : Q }.
Record inst := { n : nat; ilb : list (option Q); iub : list (option Q);
                 G : mat; h : vec; cones : list cone }.
Record cert := { lam : vec; ys : list vec; ss : vec }.

Fixpoint all_leP (u v : vec) : Prop :=
  match u, v with
  | [], [] => True
  | a :: u', b :: v' => a <= b /\ all_leP u' v'
  | _, _ => False
  end.
Definition cone_feas (c : cone) (x : vec) : Prop :=
  0 <= crho c /\ sq (vsub (matvec (cM c) x) (ce c)) <= crho c * crho c.
Definition feasible (i : inst) (x : vec) : Prop :=
  in_boxo x (ilb i) (iub i) /\ all_leP (matvec (G i) x) (h i) /\ Forall (fun c => cone_feas c x) (cones i).

(* well-formedness (shapes) as a boolean *)
Definition rectnb (m : nat) (M : mat) : bool := forallb (fun r => Nat.eqb (length r) m) M.
Definition wfb (i : inst) : bool :=
  Nat.eqb (length (ilb i)) (n i) && Nat.eqb (length (iub i)) (n i) &&
  rectnb (n i) (G i) && Nat.eqb (length (h i)) (length (G i)) &&
  forallb (fun c => rectnb (n i) (cM c) && Nat.eqb (length (ce c)) (length (cM c))) (cones i).

Fixpoint nonnegb (v : vec) : bool := match v with [] => true | a :: v' => Qle_bool 0 a && nonnegb v' end.
Fixpoint cones_okb (cs : list cone) (ys : list vec) (ss : vec) : bool :=
  match cs, ys, ss with
  | [], [], [] => true
  | c :: cs', y :: ys', s :: ss' =>
      Nat.eqb (length y) (length (cM c)) && Qle_bool 0 s && Qle_bool (sq y) (s * s) && cones_okb cs' ys' ss'
  | _, _, _ => false
  end.
Definition cert_ok (i : inst) (c : cert) : bool :=
  nonnegb (lam c) && Nat.eqb (length (lam c)) (length (G i)) && cones_okb (cones i) (ys c) (ss c).

(* sum_k M_k^T y_k   and   sum_k (s_k rho_k - y_k . e_k) *)
Fixpoint cone_r (m : nat) (cs : list cone) (ys : list vec) : vec :=
  match cs, ys with
  | c :: cs', y :: ys' => vadd (tmatvec (cM c) y m) (cone_r m cs' ys')
  | _, _ => vzero m
  end.
Fixpoint cone_c (cs : list cone) (ys : list vec) (ss : vec) : Q :=
  match cs, ys, ss with
  | c :: cs', y :: ys', s :: ss' => (s * crho c - dot y (ce c)) + cone_c cs' ys' ss'
  | _, _, _ => 0
  end.
Definition redcost (i : inst) (c : cert) (g : vec) : vec :=
  vsub (vadd g (tmatvec (G i) (lam c) (n i))) (cone_r (n i) (cones i) (ys c)).
(* q(x0) and a (sub)gradient g at x0 are supplied by the caller *)
Definition dual_bound (i : inst) (c : cert) (qx0 : Q) (g x0 : vec) : option Q :=
  match boxmino (redcost i c g) (ilb i) (iub i) with
  | Some t => Some (qx0 - dot g x0 - dot (lam c) (h i) - cone_c (cones i) (ys c) (ss c) + t)
  | None => None
  end.

(* ---------- soundness ---------- *)
Lemma rectnb_rect m M : rectnb m M = true -> rect m M.
Proof. unfold rectnb, rect. rewrite forallb_forall, Forall_forall. intros H r Hr. apply Nat.eqb_eq; auto. Qed.

Lemma lam_term lam0 Gx h0 : nonnegb lam0 = true -> all_leP Gx h0 -> length lam0 = length Gx ->
  dot lam0 Gx <= dot lam0 h0.
Proof.
  revert Gx h0; induction lam0 as [|l lam0 IH]; intros [|a Gx] [|b h0] Hn Hle HL; simpl in *; try discriminate; try tauto; try lra.
  apply andb_true_iff in Hn. destruct Hn as [Hl Hn]. apply Qle_bool_iff in Hl.
  destruct Hle as [Hab Hle]. specialize (IH Gx h0 Hn Hle ltac:(lia)). nra.
Qed.

Lemma len_cone_r m cs ys : Forall (fun c => rect m (cM c)) cs -> length (cone_r m cs ys) = m.
Proof.
  revert ys; induction cs as [|c cs IH]; intros [|y ys] H; simpl; try apply len_vzero.
  inversion H; subst. rewrite len_vadd; rewrite len_tmatvec; auto. rewrite IH; auto.
Qed.

Lemma cone_terms cs ys ss x :
  Forall (fun c => rect (length x) (cM c) /\ length (ce c) = length (cM c)) cs ->
  cones_okb cs ys ss = true -> Forall (fun c => cone_feas c x) cs ->
  0 <= cone_c cs ys ss + dot (cone_r (length x) cs ys) x.
Proof.
  revert ys ss; induction cs as [|c cs IH]; intros [|y ys] [|s ss] Hwf Hok Hf; simpl in *; try discriminate.
  - rewrite dot_vzero_l. lra.
  - inversion Hwf as [|c' cs' [Hrect Hlen] Hwf']; subst. inversion Hf as [|c' cs' [Hrho Hnorm] Hf']; subst.
    rewrite !andb_true_iff in Hok. destruct Hok as [[[Hly Hs] Hsq] Hok].
    apply Nat.eqb_eq in Hly. apply Qle_bool_iff in Hs. apply Qle_bool_iff in Hsq.
    specialize (IH ys ss Hwf' Hok Hf').
    rewrite dot_vadd_l by (rewrite len_tmatvec, len_cone_r; auto; eapply Forall_impl; [|exact Hwf']; intros ? [? ?]; auto).
    rewrite <- (transpose_id (cM c) y x (length x) Hrect Hly).
    set (v := vsub (matvec (cM c) x) (ce c)) in *.
    assert (Hlv : length y = length v) by (unfold v; rewrite len_vsub; rewrite len_matvec; lia).
    destruct (dot_abs_bound y v s (crho c) Hlv Hs Hrho Hsq Hnorm) as [Hlo _].
    assert (E : dot y v == dot y (matvec (cM c) x) - dot y (ce c)).
    { unfold v. apply dot_vsub_r. rewrite len_matvec. lia. }
    lra.
Qed.

Theorem dual_bound_sound (i : inst) (c : cert) (q : vec -> Q) (qx0 : Q) (g x0 : vec) (L : Q) :
  wfb i = true -> cert_ok i c = true -> length g = n i -> length x0 = n i ->
  (forall x, length x = n i -> qx0 + dot g (vsub x x0) <= q x) ->
  dual_bound i c qx0 g x0 = Some L ->
  forall x, feasible i x -> L <= q x.
Proof.
  intros Hwf Hok Hg Hx0 Htan HL x (Hbox & Hlin & Hcones).
  unfold wfb in Hwf. rewrite !andb_true_iff in Hwf. destruct Hwf as [[[[Hlb Hub] HG] Hh] Hc].
  apply Nat.eqb_eq in Hlb, Hub, Hh. apply rectnb_rect in HG.
  unfold cert_ok in Hok. rewrite !andb_true_iff in Hok. destruct Hok as [[Hlam Hllen] Hcok].
  apply Nat.eqb_eq in Hllen.
  destruct (in_boxo_len _ _ _ Hbox) as [Hxl _]. assert (Hx : length x = n i) by lia.
  assert (Hcwf : Forall (fun c => rect (n i) (cM c) /\ length (ce c) = length (cM c)) (cones i)).
  { apply Forall_forall. intros c0 Hc0. rewrite forallb_forall in Hc. specialize (Hc c0 Hc0).
    apply andb_true_iff in Hc. destruct Hc as [H1 H2]. split; [apply rectnb_rect; auto | apply Nat.eqb_eq; auto]. }
  unfold dual_bound in HL. destruct (boxmino _ _ _) as [t|] eqn:E; [|discriminate]. inversion HL; subst L; clear HL.
  pose proof (boxmino_le _ x _ _ t E Hbox) as Hbm.
  pose proof (Htan x Hx) as Ht.
  rewrite dot_vsub_r in Ht by lia.
  pose proof (lam_term (lam c) (matvec (G i) x) (h i) Hlam Hlin ltac:(rewrite len_matvec; lia)) as Hl.
  rewrite (transpose_id (G i) (lam c) x (n i) HG Hllen) in Hl.
  assert (Hcn : 0 <= cone_c (cones i) (ys c) (ss c) + dot (cone_r (n i) (cones i) (ys c)) x).
  { rewrite <- Hx. apply cone_terms; auto. rewrite Hx. exact Hcwf. }
  unfold redcost in Hbm.
  assert (Hlr : length (cone_r (n i) (cones i) (ys c)) = n i).
  { apply len_cone_r. eapply Forall_impl; [|exact Hcwf]. intros ? [? ?]; auto. }
  assert (Hlt : length (tmatvec (G i) (lam c) (n i)) = n i) by (apply len_tmatvec; auto).
  rewrite dot_vsub_l in Hbm by (rewrite len_vadd; lia).
  rewrite dot_vadd_l in Hbm by lia.
  lra.
Qed.

(* the certified optimality gap: a feasible candidate whose value is within eps of the
   bound is an eps-minimiser over the whole feasible set *)
Corollary gap_sound (i : inst) (c : cert) (q : vec -> Q) (qx0 : Q) (g x0 : vec) (L eps qhat : Q) :
  wfb i = true -> cert_ok i c = true -> length g = n i -> length x0 = n i ->
  (forall x, length x = n i -> qx0 + dot g (vsub x x0) <= q x) ->
  dual_bound i c qx0 g x0 = Some L -> qhat - L <= eps ->
  forall x, feasible i x -> qhat <= q x + eps.
Proof. intros. pose proof (dual_bound_sound i c q qx0 g x0 L H H0 H1 H2 H3 H4 x H6). lra. Qed.

(* ---------- objective families with their tangent lower bounds ---------- *)
(* least squares |M x - e|^2 *)
Definition obj_ls (M : mat) (e x : vec) : Q := sq (vsub (matvec M x) e).
Definition grad_ls (m : nat) (M : mat) (e x0 : vec) : vec :=
  vscale 2 (tmatvec M (vsub (matvec M x0) e) m).
Lemma vsub_cancel_r a b e : length a = length e -> length b = length e ->
  veq (vsub (vsub a e) (vsub b e)) (vsub a b).
Proof.
  revert b e; induction a as [|a0 a IH]; intros [|b0 b] [|e0 e] H1 H2; simpl in *; try discriminate; constructor.
  - ring.
  - apply IH; lia.
Qed.
Lemma tangent_ls m M e x0 x : rect m M -> length e = length M -> length x = m -> length x0 = m ->
  obj_ls M e x0 + dot (grad_ls m M e x0) (vsub x x0) <= obj_ls M e x.
Proof.
  intros HM He Hx Hx0. unfold obj_ls, grad_ls.
  set (v := vsub (matvec M x0) e). set (u := vsub (matvec M x) e).
  assert (Hlv : length v = length M) by (unfold v; rewrite len_vsub; rewrite len_matvec; lia).
  assert (Hlu : length u = length M) by (unfold u; rewrite len_vsub; rewrite len_matvec; lia).
  pose proof (convex_lower u v ltac:(lia)) as Hc.
  rewrite dot_vscale_l.
  rewrite <- (transpose_id M v (vsub x x0) m HM Hlv).
  assert (E : veq (vsub u v) (matvec M (vsub x x0))).
  { unfold u, v. rewrite (matvec_vsub M x x0) by lia.
    apply vsub_cancel_r; rewrite ?len_matvec; lia. }
  rewrite <- E. lra.
Qed.

(* diagonal quadratic sum_i d_i x_i^2 with d >= 0 *)
Definition obj_diag (d x : vec) : Q := dot d (vmul x x).
Definition grad_diag (d x0 : vec) : vec := vscale 2 (vmul d x0).
Lemma tangent_diag d x0 x : nonnegb d = true -> length x = length d -> length x0 = length d ->
  obj_diag d x0 + dot (grad_diag d x0) (vsub x x0) <= obj_diag d x.
Proof.
  unfold obj_diag, grad_diag. revert x0 x; induction d as [|d0 d IH]; intros [|a0 x0] [|a x] Hd H1 H2;
    simpl in *; try discriminate; try lra.
  apply andb_true_iff in Hd. destruct Hd as [Hd0 Hd]. apply Qle_bool_iff in Hd0.
  specialize (IH x0 x Hd ltac:(lia) ltac:(lia)). unfold vscale in *.
  set (T1 := dot d (vmul x0 x0)) in *. set (T2 := dot (map (Qmult 2) (vmul d x0)) (vsub x x0)) in *.
  set (T3 := dot d (vmul x x)) in *.
  assert (0 <= d0 * ((a - a0) * (a - a0))).
  { apply Qmult_le_0_compat; auto. destruct (Qlt_le_dec (a - a0) 0); nra. }
  nra.
Qed.

(* linear c . x *)
Lemma tangent_lin c x0 x : length x = length x0 ->
  dot c x0 + dot c (vsub x x0) <= dot c x.
Proof. intros H. rewrite dot_vsub_r by auto. lra. Qed.

(* tangents add *)
Lemma tangent_add (q1 q2 : vec -> Q) a1 a2 g1 g2 x0 x : length g1 = length g2 ->
  a1 + dot g1 (vsub x x0) <= q1 x -> a2 + dot g2 (vsub x x0) <= q2 x ->
  (a1 + a2) + dot (vadd g1 g2) (vsub x x0) <= q1 x + q2 x.
Proof. intros HL H1 H2. rewrite dot_vadd_l by auto. lra. Qed.

(* strong convexity in prediction space: near-optimal objective => near-optimal prediction *)
Lemma pred_unique M e x xs : length e = length M ->
  (* xs minimises with the first-order condition written in prediction space *)
  0 <= dot (vsub (matvec M xs) e) (vsub (vsub (matvec M x) e) (vsub (matvec M xs) e)) ->
  sq (vsub (vsub (matvec M x) e) (vsub (matvec M xs) e)) <= obj_ls M e x - obj_ls M e xs.
Proof.
  intros He Hfo. unfold obj_ls.
  set (u := vsub (matvec M x) e) in *. set (v := vsub (matvec M xs) e) in *.
  assert (HL : length u = length v) by (unfold u, v; rewrite !len_vsub; rewrite !len_matvec; lia).
  rewrite (dot_sub_sq u v HL). lra.
Qed.

(* Farkas-type infeasibility: a certificate whose bound for the zero objective is positive *)
Corollary farkas_infeasible (i : inst) (c : cert) (L : Q) :
  wfb i = true -> cert_ok i c = true ->
  dual_bound i c 0 (vzero (n i)) (vzero (n i)) = Some L -> 0 < L ->
  forall x, ~ feasible i x.
Proof.
  intros Hwf Hok HL Hpos x Hf.
  pose proof (dual_bound_sound i c (fun _ => 0) 0 (vzero (n i)) (vzero (n i)) L Hwf Hok
                (len_vzero _) (len_vzero _)) as H.
  assert (Ht : forall x0, length x0 = n i -> 0 + dot (vzero (n i)) (vsub x0 (vzero (n i))) <= 0).
  { intros. rewrite dot_vzero_l. lra. }
  specialize (H Ht HL x Hf). simpl in H. lra.
Qed.
