(* Cert/Qp.v — generic certified convex programme used by C07-C11:
     minimise  q(x) = sum_i d_i x_i^2 + |M x - e|^2 + c.x     (d >= 0)
     subject to the constraints of an `inst` (box, linear rows, second-order cone rows).
   `qverdict` checks a candidate against a weak-duality certificate; `qverdict_sound` turns a passing
   verdict into optimality over ALL feasible points. *)
From Coq Require Import QArith Qabs Qminmax List Bool Lia Lqa Setoid Morphisms.
From DV Require Import Base.QVec Run.Verdict Cert.Duality.
Import ListNotations.
Open Scope Q_scope.

Record obj := { o_d : vec; o_M : mat; o_e : vec; o_c : vec }.
Definition objective (o : obj) (x : vec) : Q := obj_diag (o_d o) x + obj_ls (o_M o) (o_e o) x + dot (o_c o) x.
Definition gradient (n : nat) (o : obj) (x0 : vec) : vec :=
  vadd (vadd (grad_diag (o_d o) x0) (grad_ls n (o_M o) (o_e o) x0)) (o_c o).

Definition obj_wfb (n : nat) (o : obj) : bool :=
  Nat.eqb (length (o_d o)) n && nonnegb (o_d o) && rectnb n (o_M o) && Nat.eqb (length (o_e o)) (length (o_M o)) &&
  Nat.eqb (length (o_c o)) n.

(* approximate feasibility of the implementation's point *)
Fixpoint rows_le_tol (tol : Q) (u v : vec) : bool :=
  match u, v with [], [] => true | a :: u', b :: v' => Qle_bool a (b + tol) && rows_le_tol tol u' v' | _, _ => false end.
Definition cone_feas_tol (tol : Q) (x : vec) (c : cone) : bool :=
  Qle_bool 0 (crho c) && Qle_bool (sq (vsub (matvec (cM c) x) (ce c))) ((crho c + tol) * (crho c + tol)).
Definition feasible_tol (i : inst) (tolb tol : Q) (x : vec) : bool :=
  in_boxob tolb x (ilb i) (iub i) && rows_le_tol tol (matvec (G i) x) (h i) && forallb (cone_feas_tol tol x) (cones i).

Record qcase := { q_inst : inst; q_obj : obj; q_x : vec; q_cert : cert; q_x0 : vec; q_eps : Q; q_tolb : Q; q_tol : Q }.
Definition qlower (c : qcase) : option Q :=
  dual_bound (q_inst c) (q_cert c) (objective (q_obj c) (q_x0 c)) (gradient (n (q_inst c)) (q_obj c) (q_x0 c)) (q_x0 c).
Definition qverdict (c : qcase) : bool :=
  wfb (q_inst c) && obj_wfb (n (q_inst c)) (q_obj c) && cert_ok (q_inst c) (q_cert c) &&
  Nat.eqb (length (q_x0 c)) (n (q_inst c)) && Nat.eqb (length (q_x c)) (n (q_inst c)) &&
  feasible_tol (q_inst c) (q_tolb c) (q_tol c) (q_x c) &&
  match qlower c with Some L => Qle_bool (objective (q_obj c) (q_x c)) (L + q_eps c) | None => false end.

Lemma len_grad_diag d x0 : length x0 = length d -> length (grad_diag d x0) = length d.
Proof. intros H. unfold grad_diag. rewrite len_vscale, len_vmul; auto. Qed.
Lemma len_grad_ls m M e x0 : rect m M -> length (grad_ls m M e x0) = m.
Proof. intros H. unfold grad_ls. rewrite len_vscale. apply len_tmatvec; auto. Qed.

Lemma tangent_objective n o x0 x : obj_wfb n o = true -> length x0 = n -> length x = n ->
  objective o x0 + dot (gradient n o x0) (vsub x x0) <= objective o x.
Proof.
  unfold obj_wfb. rewrite !andb_true_iff. intros [[[[Hd Hdn] HM] He] Hc] Hx0 Hx.
  apply Nat.eqb_eq in Hd, He, Hc. apply rectnb_rect in HM.
  unfold objective, gradient.
  pose proof (tangent_diag (o_d o) x0 x Hdn ltac:(lia) ltac:(lia)) as T1.
  pose proof (tangent_ls n (o_M o) (o_e o) x0 x HM He Hx Hx0) as T2.
  pose proof (tangent_lin (o_c o) x0 x ltac:(lia)) as T3.
  assert (L1 : length (grad_diag (o_d o) x0) = n) by (rewrite len_grad_diag; lia).
  assert (L2 : length (grad_ls n (o_M o) (o_e o) x0) = n) by (apply len_grad_ls; auto).
  rewrite dot_vadd_l by (rewrite len_vadd; lia). rewrite dot_vadd_l by lia. lra.
Qed.

Theorem qverdict_sound (c : qcase) : qverdict c = true ->
  forall x, feasible (q_inst c) x -> objective (q_obj c) (q_x c) <= objective (q_obj c) x + q_eps c.
Proof.
  unfold qverdict. rewrite !andb_true_iff. intros [[[[[[Hwf Ho] Hc] Hx0] Hx] Hf] HL] x Hfx.
  apply Nat.eqb_eq in Hx0, Hx.
  unfold qlower in HL. destruct (dual_bound _ _ _ _ _) as [L|] eqn:E; [|discriminate].
  apply Qle_bool_iff in HL.
  assert (Hg : length (gradient (n (q_inst c)) (q_obj c) (q_x0 c)) = n (q_inst c)).
  { unfold obj_wfb in Ho. rewrite !andb_true_iff in Ho. destruct Ho as [[[[Hd Hdn] HM] He] Hcc].
    apply Nat.eqb_eq in Hd, Hcc. apply rectnb_rect in HM. unfold gradient.
    rewrite len_vadd; rewrite len_vadd; rewrite ?len_grad_diag, ?len_grad_ls; auto; lia. }
  pose proof (dual_bound_sound (q_inst c) (q_cert c) (objective (q_obj c)) (objective (q_obj c) (q_x0 c))
    (gradient (n (q_inst c)) (q_obj c) (q_x0 c)) (q_x0 c) L Hwf Hc Hg Hx0) as H.
  assert (Ht : forall x1, length x1 = n (q_inst c) ->
     objective (q_obj c) (q_x0 c) + dot (gradient (n (q_inst c)) (q_obj c) (q_x0 c)) (vsub x1 (q_x0 c)) <= objective (q_obj c) x1).
  { intros x1 Hx1. apply tangent_objective; auto. }
  specialize (H Ht E x Hfx). lra.
Qed.
