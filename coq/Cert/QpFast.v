(* Cert/QpFast.v — the certified least-squares programme of Cert/Qp.v for LARGE residual vectors:
   the objective value and its gradient are computed with a reduction (Qred) after every addition, so that the
   Coq VM never carries the product of all denominators (Z is a binary inductive there, not a machine bignum).
   Same soundness statement as qverdict_sound; the reduced quantities are proved == the plain ones. *)
From Coq Require Import QArith Qabs Qminmax List Bool Arith Lia Lqa Setoid Morphisms.
From DV Require Import Base.QVec Run.Verdict Cert.Duality Cert.Qp.
Import ListNotations.
Open Scope Q_scope.

Fixpoint dotr (u v : vec) : Q :=
  match u, v with a :: u', b :: v' => Qred (a * b + dotr u' v') | _, _ => 0 end.
Definition matvecr (M : mat) (x : vec) : vec := map (fun r => dotr r x) M.
Fixpoint tmatvecr (G : mat) (lam : vec) (n : nat) : vec :=
  match G, lam with
  | row :: G', l :: lam' => vred (vadd (vscale l row) (tmatvecr G' lam' n))
  | _, _ => vzero n
  end.
Definition resr (M : mat) (e x : vec) : vec := vred (vsub (matvecr M x) e).
Definition obj_ls_r (M : mat) (e x : vec) : Q := let r := resr M e x in dotr r r.
Definition grad_ls_r (m : nat) (M : mat) (e x0 : vec) : vec := vscale 2 (tmatvecr M (resr M e x0) m).

Lemma dotr_eq u v : dotr u v == dot u v.
Proof.
  revert v; induction u as [|a u IH]; intros [|b v]; cbn [dotr dot]; try reflexivity.
  transitivity (a * b + dotr u v); [apply Qred_correct | rewrite IH; reflexivity].
Qed.
Lemma vred_eq v : veq (vred v) v.
Proof. unfold vred. induction v as [|a v IH]; cbn [map]; constructor; [apply Qred_correct | exact IH]. Qed.
Lemma matvecr_eq M x : veq (matvecr M x) (matvec M x).
Proof. unfold matvecr, matvec. induction M as [|r M IH]; cbn [map]; constructor; [apply dotr_eq | exact IH]. Qed.
Lemma tmatvec_veq G n : forall lam lam', veq lam lam' -> veq (tmatvec G lam n) (tmatvec G lam' n).
Proof.
  induction G as [|row G IH]; intros lam lam' H.
  - destruct lam, lam'; simpl; reflexivity.
  - inversion H as [|l l' t t' Hl Ht]; subst; simpl; [reflexivity|].
    apply vadd_Proper; [apply vscale_Proper; [exact Hl | reflexivity] | apply IH; exact Ht].
Qed.
Lemma tmatvecr_eq G n : forall lam, veq (tmatvecr G lam n) (tmatvec G lam n).
Proof.
  induction G as [|row G IH]; intros [|l lam]; cbn [tmatvecr tmatvec]; try reflexivity.
  rewrite vred_eq. apply vadd_Proper; [reflexivity | apply IH].
Qed.
Lemma resr_eq M e x : veq (resr M e x) (vsub (matvec M x) e).
Proof. unfold resr. rewrite vred_eq. apply vsub_Proper; [apply matvecr_eq | reflexivity]. Qed.
Lemma obj_ls_r_eq M e x : obj_ls_r M e x == obj_ls M e x.
Proof. unfold obj_ls_r, obj_ls, sq. rewrite dotr_eq. apply dot_Proper; apply resr_eq. Qed.
Lemma grad_ls_r_eq m M e x0 : veq (grad_ls_r m M e x0) (grad_ls m M e x0).
Proof.
  unfold grad_ls_r, grad_ls. apply vscale_Proper; [reflexivity|].
  rewrite tmatvecr_eq. apply tmatvec_veq. apply resr_eq.
Qed.
Lemma veq_length u v : veq u v -> length u = length v.
Proof. intros H. induction H; simpl; auto. Qed.

(* least-squares case: minimise |M x - e|^2 over the instance *)
Record lcase := { l_inst : inst; l_M : mat; l_e : vec; l_x : vec; l_x0 : vec; l_cert : cert; l_eps : Q; l_tolb : Q; l_tol : Q }.
Definition llower (c : lcase) : option Q :=
  dual_bound (l_inst c) (l_cert c) (obj_ls_r (l_M c) (l_e c) (l_x0 c)) (grad_ls_r (n (l_inst c)) (l_M c) (l_e c) (l_x0 c)) (l_x0 c).
Definition lverdict (c : lcase) : bool :=
  wfb (l_inst c) && rectnb (n (l_inst c)) (l_M c) && Nat.eqb (length (l_e c)) (length (l_M c)) && cert_ok (l_inst c) (l_cert c) &&
  Nat.eqb (length (l_x c)) (n (l_inst c)) && Nat.eqb (length (l_x0 c)) (n (l_inst c)) &&
  feasible_tol (l_inst c) (l_tolb c) (l_tol c) (l_x c) &&
  match llower c with Some L => Qle_bool (obj_ls_r (l_M c) (l_e c) (l_x c)) (L + l_eps c) | None => false end.

Theorem lverdict_sound (c : lcase) : lverdict c = true ->
  forall x, feasible (l_inst c) x -> obj_ls (l_M c) (l_e c) (l_x c) <= obj_ls (l_M c) (l_e c) x + l_eps c.
Proof.
  unfold lverdict. rewrite !andb_true_iff. intros [[[[[[[Hwf HM] He] Hc] Hx] Hx0] Hf] HL] x Hfx.
  apply Nat.eqb_eq in He, Hx, Hx0. apply rectnb_rect in HM.
  unfold llower in HL. destruct (dual_bound _ _ _ _ _) as [L|] eqn:E; [|discriminate].
  apply Qle_bool_iff in HL. rewrite obj_ls_r_eq in HL.
  assert (Hg : length (grad_ls_r (n (l_inst c)) (l_M c) (l_e c) (l_x0 c)) = n (l_inst c)).
  { rewrite (veq_length _ _ (grad_ls_r_eq _ _ _ _)). apply len_grad_ls. exact HM. }
  pose proof (dual_bound_sound (l_inst c) (l_cert c) (obj_ls (l_M c) (l_e c)) (obj_ls_r (l_M c) (l_e c) (l_x0 c))
    (grad_ls_r (n (l_inst c)) (l_M c) (l_e c) (l_x0 c)) (l_x0 c) L Hwf Hc Hg Hx0) as H.
  assert (Ht : forall x1, length x1 = n (l_inst c) ->
     obj_ls_r (l_M c) (l_e c) (l_x0 c) + dot (grad_ls_r (n (l_inst c)) (l_M c) (l_e c) (l_x0 c)) (vsub x1 (l_x0 c)) <= obj_ls (l_M c) (l_e c) x1).
  { intros x1 Hx1. rewrite obj_ls_r_eq, grad_ls_r_eq. apply tangent_ls; auto. }
  specialize (H Ht E x Hfx). lra.
Qed.
